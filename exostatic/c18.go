package main

import (
	"fmt"
	"go/ast"
	"go/types"
	"sort"
	"strings"

	"golang.org/x/tools/go/ssa"
)

func init() { register("C18", runC18) }

var c18Modules = map[string]bool{"assets": true, "delegation": true, "operator": true, "dogfood": true, "epochs": true, "oracle": true, "exomint": true, "feedistribution": true}

// families that are legitimately not exported/imported, each with its reason.
var c18Exempt = map[string]string{
	"dogfood:0x08": "PendingOptOuts: written by the epoch hook in BeginBlock and cleared by EndBlock of the same block (checked by C18.R1t)",
	"dogfood:0x09": "PendingConsensusAddrs: same-block transient (C18.R1t)",
	"dogfood:0x0a": "PendingUndelegations: same-block transient (C18.R1t)",
	"dogfood:0x0b": "EpochEnd marker: set in BeginBlock, cleared in EndBlock of the same block (C18.R1t)",
	"dogfood:0x0f": "ValidatorUpdates: rewritten by dogfood EndBlock in every block and read only later in the same block",
	"dogfood:0x0c": "HistoricalInfo: IBC light-client helper, pruned continuously, not part of the exported restaking state",
	"dogfood:0x01": "ExocoreValidator set: exported through IterateBondedValidatorsByPower (reads 0x01) - listed only to document the indirection",
}

// families that InitGenesis rebuilds from another exported family.
var c18Derived = map[string]string{
	"dogfood:0x04":    "OperatorOptOutFinishEpoch: reverse lookup rebuilt on import from the exported opt-out queue (0x03)",
	"dogfood:0x0d":    "UndelegationMaturityEpoch: reverse lookup rebuilt on import from the exported maturity queue (0x06)",
	"delegation:0x04": "staker->record index: rebuilt on import by SetUndelegationRecords from the exported records (0x03)",
	"delegation:0x05": "pending-by-height index: rebuilt on import by SetUndelegationRecords from the exported records (0x03)",
	"operator:0x09":   "chain->operator->key index: rebuilt on import from the exported operator->chain->key records (0x07)",
	"operator:0x0a":   "chain->consAddr->operator index: rebuilt on import from the exported operator->chain->key records (0x07)",
}

func sumOf(e *Effects, fns []*ssa.Function) map[string]bool {
	out := map[string]bool{}
	for _, f := range fns {
		for k := range e.Sum[f] {
			out[k] = true
		}
	}
	return out
}

func runC18(r *Run) {
	w := r.W
	e := effects(w)
	cat := catalogue(w)
	r.Explain = "Static decision of structural necessary conditions of C18 (genesis export/import): per key family (resolved from the SSA of every KV access) - (R1) every family that a live entry point can write is read by the module's ExportGenesis call tree (or rebuilt from an exported family) and written by its InitGenesis call tree; (R2) a family is decoded only as the type it is encoded as and addressed through one key constructor (catches exporters on the wrong prefix and importers under a different key); (R3) import literals of ledger rows are field-complete; (R4) the module init order is consistent with the cross-module store reads of each InitGenesis call tree."
	r.NotDec = []string{"that the exported document passes GenesisState.Validate", "behavioural equivalence of the re-imported chain", "field-level agreement beyond the completeness of import literals"}
	r.Assume = []string{"the key-family resolver identifies the leading constant of every store key (undecided accesses are reported)", "module.Manager runs InitGenesis in the SetOrderInitGenesis order"}
	r.rule("C18.R1", "export/import coverage: each key family with a live writer is (i) read by ExportGenesis' call tree or rebuilt on import from an exported family, (ii) written by InitGenesis' call tree; exemptions are per family with a reason", 40)
	r.rule("C18.R1t", "same-block transient claim: each exempt dogfood transient is written from a BeginBlock-reachable hook and deleted from dogfood EndBlock", 4)
	r.rule("C18.R2", "codec and key-constructor agreement per family", 40)
	r.rule("C18.R3", "InitGenesis literals of ledger delta/row types set every field of the type (or are whole-struct conversions)", 1)
	r.rule("C18.R4", "SetOrderInitGenesis: a module whose InitGenesis call tree reads a family of another module comes after it", 5)
	r.rule("C18.R5", "exporters do not filter: inside the iterations of ExportGenesis / GetAll* / All* every element is appended (grouping flushes and decoding successes aside)", 10)
	r.rule("C18.R6", "genesis validation admits every state the live code can write: same-block opt-in/opt-out heights; a record completing at the import height (C03.R4 class)", 2)
	r.rule("C18.R7", "the importer is the inverse of the exporter: every exported element is stored under a key taken from the element; an address exported as text is read back with the decoder of the same kind", 8)
	r.rule("C18.R8", "genesis code agrees with live code: exporter/importer agree on joined genesis keys; a full validator set passes dogfood's validation; an empty staker list (kept by the live code) passes delegation's validation; exporters over the raw module store do not export absolute keys; an operator value record may precede its AVS value record; recorded slash amounts of zero pass validation", 7)
	c18Agreements(r)
	c18ImportInverse(r)
	iteratorVisitsAllRule(r, "C18.R5", map[string]bool{"x/avs/keeper.Keeper.IterateAVSInfo": true, "x/avs/keeper.Keeper.IterateTaskAVSInfo": true, "x/avs/keeper.Keeper.IterateResultInfo": true, "x/assets/keeper.Keeper.IterateAllClientChains": true, "x/epochs/keeper.Keeper.IterateEpochInfos": true})
	{
		n := 0
		var fos []*types.Func
		for fo := range exportReachable(w) {
			fos = append(fos, fo)
		}
		sort.Slice(fos, func(i, j int) bool { return funcID(fos[i]) < funcID(fos[j]) })
		for _, fo := range fos {
			v := w.ViewOf(fo)
			if v == nil || strings.HasSuffix(w.relFile(v.Decl.Pos()), ".pb.go") || strings.HasPrefix(funcID(fo), "x/evm") {
				continue
			}
			nm := v.Decl.Name.Name
			// All<Something> getters (AllDelegationStates …), not every name that starts with these letters (Allocate…)
			isAllGetter := strings.HasPrefix(nm, "All") && len(nm) > 3 && nm[3] >= 'A' && nm[3] <= 'Z'
			if !(nm == "ExportGenesis" || strings.HasPrefix(nm, "GetAll") || isAllGetter) {
				continue
			}
			n++
			r.saw(v.ID())
			cas := conditionalAppendsInIterations(v)
			var bad []string
			for _, ca := range cas {
				grouping := false
				for _, c := range ca.Conds {
					if strings.Contains(c, "prev") || strings.Contains(c, "previous") {
						grouping = true // flush of a finished group when the key changes
					}
				}
				if !grouping {
					bad = append(bad, v.pos(ca.As)+" under "+strings.Join(ca.Conds, " && "))
				}
			}
			r.check(len(bad) == 0, "C18.R5", "exporter|"+v.ID(), v.pos(v.Decl), "every stored element is exported", v.ID()+" leaves elements out of the export: append at "+strings.Join(bad, "; ")+" (the re-imported chain continues with a different state, e.g. a smaller validator set)")
		}
		if n == 0 {
			r.bad("C18.R5", "exporter|none", "-", "exporters found", "no exporter functions found")
		}
	}
	// decode targets are fresh per element everywhere in the repository's keepers
	{
		n, bad := 0, []string{}
		for _, fv := range w.allViews() {
			if !strings.HasPrefix(fv.ID(), "x/") || strings.HasPrefix(fv.ID(), "x/evm") || strings.HasSuffix(w.relFile(fv.Decl.Pos()), ".pb.go") {
				continue
			}
			for _, c := range fv.CallsNamed("MustUnmarshal", "Unmarshal") {
				if len(c.Args) != 2 {
					continue
				}
				lp := fv.innermostLoop(c)
				if lp == nil {
					continue
				}
				e := stripParens(c.Args[1])
				if u, ok := e.(*ast.UnaryExpr); ok {
					e = u.X
				}
				o := fv.objOf(e)
				if o == nil {
					continue
				}
				if _, isStruct := o.Type().Underlying().(*types.Struct); !isStruct {
					continue
				}
				n++
				if !(o.Pos() > lp.Pos() && o.Pos() < lp.End()) {
					bad = append(bad, fv.ID()+" ("+o.Name()+" at "+fv.pos(c)+")")
				}
			}
		}
		r.check(len(bad) == 0 && n > 10, "C18.R5", "decode-target-fresh", "-", "records are decoded into a fresh value per element (Unmarshal does not reset its target)", "decoded into a variable that outlives the iteration: "+strings.Join(bad, ", "))
	}
	if vv := w.View("x/operator/types", "GenesisState.ValidateOptedStates"); vv == nil {
		r.bad("C18.R6", "validate|opted-heights|anchor", "-", "anchor", "ValidateOptedStates not found")
	} else {
		r.saw(vv.ID())
		// OptIn and OptOut both record ctx.BlockHeight(): equal heights are a live state, only out < in is invalid
		okCls, found := true, false
		ast.Inspect(vv.Decl.Body, func(nd ast.Node) bool {
			ifs, isIf := nd.(*ast.IfStmt)
			if !isIf {
				return true
			}
			var fs []Fact
			decompose(ifs.Cond, true, ifs, &fs)
			for _, f := range mirrorFacts(fs) {
				if cm, ok := factCmp(f); ok && lastField(cm.L) == "OptedOutHeight" && lastField(cm.R) == "OptedInHeight" && vv.blockEndKind(ifs.Body) == "return" {
					found = true
					if cm.Op != "<" {
						okCls = false
					}
				}
			}
			return true
		})
		r.check(found && okCls, "C18.R6", "validate|opted-heights", vv.pos(vv.Decl), "an operator that opted in and out in the same block exports a genesis that validates (only OptedOutHeight < OptedInHeight is rejected)", "ValidateOptedStates rejects OptedOutHeight == OptedInHeight, which OptIn followed by OptOut in one block produces: every later export fails validation")
	}
	if r.Prop == "C18" {
		sub := NewRun(r.W, "C03", r.Tier, r.Seed)
		runC03(sub)
		n := 0
		for _, o := range sub.Obs {
			if o.Rule != "C03.R4" {
				continue
			}
			n++
			if o.Status == "ok" {
				r.ok("C18.R6", "import|"+o.Key, o.Pos, o.Desc)
			} else {
				r.bad("C18.R6", "import|"+o.Key, o.Pos, o.Desc, o.Detail)
			}
		}
		if n == 0 {
			r.bad("C18.R6", "import|none", "-", "C03.R4 obligations present", "none")
		}
	}

	live := sumOf(e, cat.Fns("beginblock", "endblock", "epochhook", "delegationhook", "operatorhook", "dogfoodhook", "msg", "precompile", "sdkcallback"))
	// all families with any access, per module
	allFams := map[string]bool{}
	for _, accs := range e.Direct {
		for _, a := range accs {
			for _, f := range a.Families {
				allFams[f] = true
			}
		}
	}
	var fams []string
	for f := range allFams {
		fams = append(fams, f)
	}
	sort.Strings(fams)
	exportOf, initOf := map[string]*ssa.Function{}, map[string]*ssa.Function{}
	for _, en := range cat.Cat("exportgenesis") {
		exportOf[strings.TrimPrefix(en.Name, "exportgenesis:")] = en.Fn
	}
	for _, en := range cat.Cat("initgenesis") {
		initOf[strings.TrimPrefix(en.Name, "initgenesis:")] = en.Fn
	}
	for _, fam := range fams {
		mod := strings.SplitN(fam, ":", 2)[0]
		if strings.HasPrefix(fam, "?") {
			m2 := strings.SplitN(strings.TrimPrefix(fam, "?"), ":", 2)[0]
			if c18Modules[m2] {
				r.undecided("C18.R1", "unresolved|"+fam, "-", "key family resolved", "a store access of module "+m2+" has an unresolved key family: "+fam)
			}
			continue
		}
		if !c18Modules[mod] {
			continue
		}
		if !live["W "+fam] {
			r.note("C18.R1: %s has no live writer (no obligation)", e.R.famName(fam))
			continue
		}
		key := "coverage|" + fam
		if why, ok := c18Exempt[fam]; ok && fam != "dogfood:0x01" {
			r.ok("C18.R1", key, "-", "exempt: "+why)
			continue
		}
		exp, ini := exportOf[mod], initOf[mod]
		if exp == nil || ini == nil {
			r.bad("C18.R1", key, "-", "module has genesis entry points", "no ExportGenesis/InitGenesis found for module "+mod)
			continue
		}
		exported := e.Sum[exp]["R "+fam] || e.Sum[exp]["I "+fam]
		imported := e.Sum[ini]["W "+fam]
		derived := ""
		if !exported {
			derived = c18Derived[fam]
		}
		var miss []string
		if !exported && derived == "" {
			miss = append(miss, "no function reachable from ExportGenesis reads it (state lost on export)")
		}
		if !imported {
			miss = append(miss, "no function reachable from InitGenesis writes it (state not restored on import)")
		}
		desc := "exported and re-imported"
		if derived != "" {
			desc = "rebuilt on import: " + derived
		}
		r.check(len(miss) == 0, "C18.R1", key, w.pos(exp.Pos()), e.R.famName(fam)+" is "+desc, e.R.famName(fam)+": "+strings.Join(miss, "; "))
	}
	// the consensus-address lookup (operator 0x0a) outlives the current-key record on purpose: a replaced key
	// stays resolvable until dogfood prunes it. "Rebuilt on import" therefore needs a rebuilder for every
	// place that retains a key: the current-key records, the previous-key records, dogfood's pruning queue.
	if c18Derived["operator:0x0a"] != "" && live["W operator:0x0a"] {
		opInit, dogInit := initOf["operator"], initOf["dogfood"]
		// (ii) the importer of the previous-key family also writes the lookup
		okPrev := false
		if opInit != nil {
			for fn := range e.Direct {
				if !w.fnInScope(fn) {
					continue
				}
				ws := directFams(e, fn, "W")
				if ws["operator:0x08"] && ws["operator:0x0a"] && reachesFn(w, opInit, fn) {
					okPrev = true
				}
			}
		}
		r.check(okPrev, "C18.R1", "derived|operator:0x0a|prev-key", "-", "the import of a previous-key record restores the consensus-address lookup of that key", "no importer writes the consensus-address lookup together with the previous-key record: a key replaced in the exported epoch (still in the validator set) no longer resolves after import, and dogfood InitGenesis panics on it")
		// (iii) the importer of dogfood's pruning queue (or anything else under InitGenesis) restores the lookup
		// of the queued addresses
		okQueue := dogInit != nil && e.Sum[dogInit]["W operator:0x0a"]
		r.check(okQueue, "C18.R1", "derived|operator:0x0a|older-retained-keys", "-", "the consensus addresses queued for pruning get their lookup back on import", "the lookup of keys replaced in an earlier epoch and still queued for pruning (dogfood 0x05) is neither exported nor restored by the dogfood import (the queue has no operator): after import they do not resolve - not slashable, free for another operator, and the pruning deletes nothing")
	}
	// R1t
	beginSum := sumOf(e, cat.Fns("beginblock", "epochhook"))
	var dogEnd *ssa.Function
	for _, en := range cat.Cat("endblock") {
		if en.Name == "endblock:dogfood" {
			dogEnd = en.Fn
		}
	}
	for _, fam := range []string{"dogfood:0x08", "dogfood:0x09", "dogfood:0x0a", "dogfood:0x0b"} {
		ok := beginSum["W "+fam] && dogEnd != nil && e.Sum[dogEnd]["D "+fam]
		// and no transaction entry writes it
		txSum := sumOf(e, cat.Fns("msg", "precompile"))
		r.check(ok && !txSum["W "+fam], "C18.R1t", "transient|"+fam, "-", e.R.famName(fam)+" is written in BeginBlock processing and deleted in dogfood EndBlock",
			"the same-block transient exemption no longer holds for "+e.R.famName(fam))
	}
	// R2
	codecAgreementRule(r, "C18.R2", c18Modules)
	keyCtorAgreementRule(r, "C18.R2", c18Modules)
	// R3: literals of ledger delta types in genesis-only functions are complete
	c18LiteralCompleteness(r)
	// R4
	c18InitOrder(r, e, initOf)
}

// c18LiteralCompleteness: in functions reachable from InitGenesis but from no live
// entry, a composite literal of a Delta*/row type of x/assets or x/delegation
// types must name every field.
func c18LiteralCompleteness(r *Run) {
	w := r.W
	cat := catalogue(w)
	initReach := w.Reach(cat.Fns("initgenesis"), func(f *ssa.Function) bool { return !w.fnInScope(f) && f.Pkg != nil })
	live := entryReachable(w)
	seen := map[*types.Func]bool{}
	n := 0
	for f := range initReach {
		root := f
		for root.Parent() != nil {
			root = root.Parent()
		}
		fo, _ := root.Object().(*types.Func)
		if fo == nil || seen[fo] || !w.fnInScope(root) {
			continue
		}
		seen[fo] = true
		if _, isLive := live[fo]; isLive {
			continue
		}
		v := w.ViewOf(fo)
		if v == nil {
			continue
		}
		ast.Inspect(v.Decl.Body, func(nd ast.Node) bool {
			cl, ok := nd.(*ast.CompositeLit)
			if !ok {
				return true
			}
			t := v.Info.TypeOf(cl)
			nt, ok := t.(*types.Named)
			if !ok || nt.Obj().Pkg() == nil || !strings.HasPrefix(nt.Obj().Name(), "Delta") {
				return true
			}
			st, ok := nt.Underlying().(*types.Struct)
			if !ok {
				return true
			}
			n++
			have := map[string]bool{}
			for _, el := range cl.Elts {
				if kv, ok := el.(*ast.KeyValueExpr); ok {
					if id, ok := kv.Key.(*ast.Ident); ok {
						have[id.Name] = true
					}
				}
			}
			var missing []string
			for i := 0; i < st.NumFields(); i++ {
				if !have[st.Field(i).Name()] {
					missing = append(missing, st.Field(i).Name())
				}
			}
			r.check(len(missing) == 0, "C18.R3", funcID(fo)+"|"+nt.Obj().Name(), v.pos(cl), "import literal of "+nt.Obj().Name()+" sets every field",
				"genesis import builds "+nt.Obj().Name()+" without "+strings.Join(missing, ",")+": the exported value of that field is dropped on import")
			return true
		})
	}
	if n == 0 {
		r.ok("C18.R3", "no-partial-literals", "-", "genesis import uses whole-struct conversions only (no Delta* literal in genesis-only code)")
	}
}

func c18InitOrder(r *Run, e *Effects, initOf map[string]*ssa.Function) {
	w := r.W
	v := w.View("app", "NewExocoreApp")
	if v == nil {
		r.bad("C18.R4", "anchor", "-", "anchor", "app.NewExocoreApp not found")
		return
	}
	var order []string
	for _, c := range v.CallsNamed("SetOrderInitGenesis") {
		for _, a := range c.Args {
			if cv := v.constOf(a); cv != nil {
				order = append(order, strings.Trim(cv.ExactString(), "\""))
			}
		}
	}
	idx := map[string]int{}
	for i, m := range order {
		idx[m] = i
	}
	if len(order) < 20 {
		r.bad("C18.R4", "order-list", v.pos(v.Decl), "SetOrderInitGenesis list", fmt.Sprintf("only %d module names resolved", len(order)))
		return
	}
	var mods []string
	for m := range initOf {
		mods = append(mods, m)
	}
	sort.Strings(mods)
	for _, m := range mods {
		if !c18Modules[m] && m != "avs" {
			continue
		}
		fn := initOf[m]
		deps := map[string]bool{}
		for k := range e.Sum[fn] {
			if k[0] != 'R' && k[0] != 'I' {
				continue
			}
			fam := k[2:]
			dm := strings.SplitN(strings.TrimPrefix(fam, "?"), ":", 2)[0]
			if dm != m && initOf[dm] != nil {
				deps[dm] = true
			}
		}
		var dl []string
		for d := range deps {
			dl = append(dl, d)
		}
		sort.Strings(dl)
		mi, ok := idx[m]
		if !ok {
			r.bad("C18.R4", "order|"+m, v.pos(v.Decl), "module listed", "module "+m+" is missing from SetOrderInitGenesis")
			continue
		}
		var late []string
		for _, d := range dl {
			if di, ok := idx[d]; !ok || di > mi {
				late = append(late, d)
			}
		}
		r.check(len(late) == 0, "C18.R4", "order|"+m, v.pos(v.Decl), fmt.Sprintf("InitGenesis of %s reads %v, all initialised earlier", m, dl),
			fmt.Sprintf("InitGenesis of %s reads state of %v, which SetOrderInitGenesis initialises later (or not at all)", m, late))
	}
}

// reachesFn: fn is reachable from root in the call graph (repo functions only).
func reachesFn(w *World, root, fn *ssa.Function) bool {
	parent := w.Reach([]*ssa.Function{root}, func(f *ssa.Function) bool { return !w.fnInScope(f) && f.Pkg != nil })
	_, ok := parent[fn]
	return ok
}
