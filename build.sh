#!/bin/bash
# Builds /verif/bin/exostatic from /verif/exostatic (offline; module cache only).
set -eu
export GOFLAGS=-mod=mod GOPROXY=off GOSUMDB=off GOTOOLCHAIN=local
unset GOWORK
HERE="$(cd "$(dirname "$0")" && pwd)"
BIN="$HERE/bin/exostatic"
if [ -x "$BIN" ] && [ -z "$(find "$HERE/exostatic" -newer "$BIN" -name '*.go' -print -quit)" ] && [ ! "$HERE/exostatic/go.mod" -nt "$BIN" ]; then
  exit 0
fi
mkdir -p "$HERE/bin"
cd "$HERE/exostatic" && go build -o "$BIN" .
echo built
