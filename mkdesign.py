#!/usr/bin/env python3
"""Regenerates the generated blocks of DESIGN.md (between <!-- GEN:x --> and <!-- /GEN:x -->)
from evidence/*.json, known_findings.json, seeded/*/meta.json and selftest/mutants/*.json."""
import json, glob, os, re, subprocess
V='/verif'
def block_rules():
    out=[]
    for f in sorted(glob.glob(f'{V}/evidence/C*.json')):
        e=json.load(open(f)); c=e['coverage']; pid=e['property_id']
        out.append(f"**{pid}** — {c['obligations']} obligations, {c['discharged']} discharged, {c.get('known_findings_matched',0)} known findings; {len(c.get('functions_analysed') or [])} anchor functions named in the evidence.\n")
        for r in c['rules']:
            out.append(f"* `{r['id']}` ({r['instances']} instances, floor {r['instance_floor']}): {r['text']}")
        nd=c.get('not_decided') or []
        if nd: out.append("* not decided: "+"; ".join(nd))
        out.append("")
    return "\n".join(out)
def block_findings():
    k=json.load(open(f'{V}/known_findings.json'))['findings']
    out=["| status | property / rule | construct | commit | what failed | failing input |","|---|---|---|---|---|---|"]
    for f in k:
        wf=f['what_fails']; wf=re.sub(r'^fixed: property=\S+ \S+ ','',wf)
        out.append(f"| {f['status']} | {f['rule']} | `{f['key'][:70]}` | {f.get('commit','') or '—'} | {wf.replace('|','/')} | {(f.get('failing_input') or '').replace('|','/')} |")
    return "\n".join(out)
def block_seeds():
    out=["| seed | property | verified | changed file(s) | detected by (first reports) |","|---|---|---|---|---|"]
    for d in sorted(glob.glob(f'{V}/seeded/C*/')):
        m=json.load(open(d+'meta.json'))
        files=sorted(set(re.findall(r'^\+\+\+ b/(\S+)',open(d+'patch.diff').read(),re.M)))
        det=m.get('detected_by') or {}
        ds=[]
        for p,ls in det.items():
            keys=[]
            for l in ls[:2]:
                mm=re.search(r'(C\d\d\.R\w+)\s+\w+\s+\[([^\]]*)\]',l)
                if mm: keys.append(f"{mm.group(1)} `{mm.group(2)[:60]}`")
            ds.append(p+": "+"; ".join(keys) if keys else p)
        ver=(m.get('verified') or '').split(' ')[0]
        out.append(f"| {m['id']} | {m['property']} | {ver} | {', '.join(files)} | {' / '.join(ds) if ds else '**missed**'} |")
    return "\n".join(out)
def block_mutants():
    out=["| property | mutants | expected-to-fire | expected-silent (behaviour-preserving edits) |","|---|---|---|---|"]
    for f in sorted(glob.glob(f'{V}/selftest/mutants/*.json')):
        m=json.load(open(f)); 
        sil=[x['id'] for x in m if x.get('expect')=='SILENT']
        out.append(f"| {os.path.basename(f)[:-5].upper()} | {len(m)} | {len(m)-len(sil)} | {', '.join(sil) if sil else '—'} |")
    return "\n".join(out)
gens={'rules':block_rules,'findings':block_findings,'seeds':block_seeds,'mutants':block_mutants}
p=f'{V}/DESIGN.md'; s=open(p).read()
for name,fn in gens.items():
    a=f'<!-- GEN:{name} -->'; b=f'<!-- /GEN:{name} -->'
    if a in s and b in s:
        i=s.index(a)+len(a); j=s.index(b)
        s=s[:i]+"\n"+fn()+"\n"+s[j:]
open(p,'w').write(s)
print("DESIGN.md regenerated")
