#!/usr/bin/env python3
"""Checker self-test: apply each compiling mutant of /repo's source in a scratch
git worktree (never in /repo), run the property's check against it and require
that it exits 1 and names the expected obligation key. Behaviour-preserving
variants (expect == "SILENT") must exit 0.

usage: mutants.py [-k substring] [-p PROP] [--keep]
"""
import json, os, subprocess, sys, shutil, argparse, glob, time

HERE = os.path.dirname(os.path.abspath(__file__))
VERIF = os.path.dirname(HERE)
import tempfile, atexit
SCRATCH = tempfile.mkdtemp(prefix="exo-mut-")
atexit.register(lambda: shutil.rmtree(SCRATCH, ignore_errors=True))
ENV = dict(os.environ, GOFLAGS="-mod=mod", GOPROXY="off", GOSUMDB="off", GOTOOLCHAIN="local")
ENV.pop("GOWORK", None)

def sh(cmd, **kw):
    return subprocess.run(cmd, shell=True, text=True, capture_output=True, env=ENV, **kw)

def ensure_scratch():
    # a private copy of /repo's working tree (never /repo itself); removed when the script exits
    r = sh(f"rsync -a --exclude .git --exclude out /repo/ {SCRATCH}/")
    if r.returncode != 0:
        print(r.stderr); sys.exit(2)
    sh(f"cd {SCRATCH} && git init -q && git add -A && git -c user.email=x@x -c user.name=x commit -qm base")

def main():
    ap = argparse.ArgumentParser()
    ap.add_argument("-k", default="")
    ap.add_argument("-p", default="")
    ap.add_argument("--keep", action="store_true")
    ap.add_argument("--compile", action="store_true", help="also check that the mutant compiles (slow)")
    a = ap.parse_args()
    muts = []
    for f in sorted(glob.glob(os.path.join(HERE, "mutants", "*.json"))):
        muts += json.load(open(f))
    muts = [m for m in muts if a.k in m["id"] and (not a.p or m["prop"] == a.p)]
    ensure_scratch()
    sh(f"{VERIF}/build.sh")
    evdir = SCRATCH + "-evidence"
    os.makedirs(evdir, exist_ok=True)
    bad = 0
    for m in muts:
        sh(f"git -C {SCRATCH} checkout -- . && git -C {SCRATCH} clean -fdq")
        ok_apply = True
        for e in m["edits"]:
            p = os.path.join(SCRATCH, e["file"])
            s = open(p).read()
            if s.count(e["old"]) < 1:
                print(f"[{m['id']}] EDIT DOES NOT APPLY: {e['file']}: {e['old'][:60]!r}")
                ok_apply = False
                break
            s = s.replace(e["old"], e["new"], 1)
            open(p, "w").write(s)
        if not ok_apply:
            bad += 1
            continue
        if a.compile:
            pk = " ".join(sorted({"./" + os.path.dirname(e["file"]) + "/..." for e in m["edits"]}))
            r = sh(f"go build {pk}", cwd=SCRATCH)
            if r.returncode != 0:
                print(f"[{m['id']}] MUTANT DOES NOT COMPILE\n{r.stderr[:400]}")
                bad += 1
                continue
        t0 = time.time()
        r = sh(f"{VERIF}/bin/exostatic -repo {SCRATCH} -prop {m['prop']} -tier quick -evidence {evdir}/{m['prop']}.json -findings {VERIF}/known_findings.json")
        out = r.stdout
        exp = m["expect"]
        if exp == "SILENT":
            good = r.returncode == 0
        else:
            good = r.returncode == 1 and any(exp in l for l in out.splitlines() if l.startswith("  "))
        print(f"[{m['id']}] prop={m['prop']} exit={r.returncode} {'OK' if good else 'MISSED'} ({time.time()-t0:.1f}s) expect={exp}")
        if not good:
            bad += 1
            for l in out.splitlines():
                if "  violated  " in l or "  undecided  " in l or "cannot analyse" in l:
                    print("     ", l[:300])
    if not a.keep:
        sh(f"git -C {SCRATCH} checkout -- . && git -C {SCRATCH} clean -fdq")
    print(f"{len(muts)} mutants, {bad} not as expected")
    shutil.rmtree(SCRATCH + "-evidence", ignore_errors=True)
    if a.keep:
        atexit.unregister
        print("kept:", SCRATCH)
        os._exit(1 if bad else 0)
    sys.exit(1 if bad else 0)

main()
