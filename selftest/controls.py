#!/usr/bin/env python3
"""Positive controls for one property (thorough tier): every rule instance that was
broken by hand in selftest/mutants/<prop>.json is re-broken in a private copy of
/repo's CURRENT working tree (never in /repo; the copy is removed afterwards) and
the property's static check is run against the copy. A control "fires" when the check
exits 1 and names the expected obligation; behaviour-preserving controls must stay
silent. Controls whose edit no longer applies to the current tree are skipped.
The result is added to the evidence file as coverage.positive_controls; it never
changes the verdict of the check (that comes from the analysis of /repo itself).

usage: controls.py PROP [repo]"""
import json, os, subprocess, sys, shutil, tempfile, time
HERE=os.path.dirname(os.path.abspath(__file__)); VERIF=os.path.dirname(HERE)
ENV=dict(os.environ,GOFLAGS="-mod=mod",GOPROXY="off",GOSUMDB="off",GOTOOLCHAIN="local"); ENV.pop("GOWORK",None)
def sh(c,**k): return subprocess.run(c,shell=True,text=True,capture_output=True,env=ENV,**k)
def main():
    prop=sys.argv[1]; repo=sys.argv[2] if len(sys.argv)>2 else "/repo"
    f=os.path.join(HERE,"mutants",prop.lower()+".json")
    res={"controls":0,"fired":0,"silent_as_expected":0,"skipped_edit_does_not_apply":[],"missed":[],"wall_s":0}
    t0=time.time()
    muts=json.load(open(f)) if os.path.exists(f) else []
    # the independently seeded changes that this property's check is recorded to catch are controls too
    import glob
    for d in sorted(glob.glob(os.path.join(VERIF,"seeded","C*",""))):
        try: meta=json.load(open(d+"meta.json"))
        except Exception: continue
        if meta.get("obsolete_since"):
            continue  # the change no longer breaks the property on the repaired tree (reason in its meta.json)
        if prop in (meta.get("detected_by") or {}) and (meta.get("detected_by") or {}).get(prop):
            muts.append({"id":"seed:"+meta["id"],"prop":prop,"expect":"ANY","patch":d+"patch.diff","edits":[]})
    if muts:
        tmp=tempfile.mkdtemp(prefix=f"exo-ctl-{prop}-")
        import threading, queue
        lock=threading.Lock(); q=queue.Queue()
        for m in muts: q.put(m)
        def worker(i):
            copy=os.path.join(tmp,f"repo{i}")
            r=sh(f"rsync -a --exclude .git --exclude out {repo}/ {copy}/")
            if r.returncode!=0:
                with lock: res["error"]="copy failed: "+r.stderr[:200]
                return
            while True:
                try: m=q.get_nowait()
                except queue.Empty: return
                saved={}; ok=True
                if m.get("patch"):
                    import re
                    files=sorted(set(re.findall(r'^\+\+\+ b/(\S+)',open(m["patch"]).read(),re.M)))
                    for fn in files:
                        p=os.path.join(copy,fn)
                        if os.path.exists(p): saved[p]=open(p).read()
                    r=sh(f"git apply --unsafe-paths --directory={copy} {m['patch']}",cwd="/")
                    if r.returncode!=0:
                        r=sh(f"patch -p1 -s -f < {m['patch']}",cwd=copy)
                    ok=r.returncode==0
                for e in m["edits"]:
                    p=os.path.join(copy,e["file"])
                    if not os.path.exists(p): ok=False; break
                    cur=open(p).read()
                    if cur.count(e["old"])<1: ok=False; break
                    saved.setdefault(p,cur)
                    open(p,"w").write(cur.replace(e["old"],e["new"],1))
                if not ok:
                    for p,s0 in saved.items(): open(p,"w").write(s0)
                    with lock: res["skipped_edit_does_not_apply"].append(m["id"])
                    continue
                r=sh(f"{VERIF}/bin/exostatic -repo {copy} -prop {prop} -tier quick -evidence {tmp}/ev{i}.json -findings {VERIF}/known_findings.json")
                exp=m["expect"]
                with lock:
                    res["controls"]+=1
                    if exp=="ANY":
                        if r.returncode==1: res["fired"]+=1
                        else: res["missed"].append(m["id"])
                    elif exp=="SILENT":
                        if r.returncode==0: res["silent_as_expected"]+=1
                        else: res["missed"].append(m["id"]+" (expected silent)")
                    else:
                        if r.returncode==1 and any(exp in l for l in r.stdout.splitlines() if l.startswith("  ")): res["fired"]+=1
                        else: res["missed"].append(m["id"])
                for p,s0 in saved.items(): open(p,"w").write(s0)
        try:
            n=min(4,max(1,len(muts)))
            ths=[threading.Thread(target=worker,args=(i,)) for i in range(n)]
            for t in ths: t.start()
            for t in ths: t.join()
        finally:
            shutil.rmtree(tmp,ignore_errors=True)
        res["missed"].sort(); res["skipped_edit_does_not_apply"].sort()
    res["wall_s"]=round(time.time()-t0,1)
    ev=os.path.join(VERIF,"evidence",prop+".json")
    try:
        e=json.load(open(ev)); e["coverage"]["positive_controls"]=res; e["wall_s"]=round(e.get("wall_s",0)+res["wall_s"],1)
        json.dump(e,open(ev,"w"),indent=1)
    except Exception as x:
        print("controls: cannot update evidence:",x)
    print(f"positive controls {prop}: {res['fired']} fired, {res['silent_as_expected']} silent as expected, {len(res['missed'])} missed, {len(res['skipped_edit_does_not_apply'])} skipped ({res['wall_s']}s)")
    for m in res["missed"]: print("  CONTROL-MISSED",m)
main()
