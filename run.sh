#!/bin/bash
# usage: run.sh <property-id> <quick|thorough>
# Rebuilds the analyser if needed, analyses /repo's current working tree, writes
# /verif/evidence/<id>.json, prints VIOLATION / KNOWN-FINDING lines, propagates the exit code.
set -u
export GOFLAGS=-mod=mod GOPROXY=off GOSUMDB=off GOTOOLCHAIN=local
unset GOWORK
HERE="$(cd "$(dirname "$0")" && pwd)"
PROP="${1:?property id}"
TIER="${2:-quick}"
REPO="${EXO_REPO:-/repo}"
"$HERE/build.sh" >/dev/null || { echo "exostatic: build failed"; exit 2; }
"$HERE/bin/exostatic" -repo "$REPO" -prop "$PROP" -tier "$TIER" \
  -evidence "$HERE/evidence/$PROP.json" -findings "$HERE/known_findings.json"
RC=$?
if [ "$TIER" = "thorough" ] && [ $RC -ne 2 ]; then
  # thorough: additionally replay the property's positive controls (hand-broken rule instances) in a
  # private copy of the current tree; recorded in the evidence, never changes the verdict
  python3 "$HERE/selftest/controls.py" "$PROP" "$REPO" || true
fi
exit $RC
