#!/bin/bash
# usage: run.sh <property-id> <quick|thorough>
# Rebuilds the analyser if needed, analyses /repo's current working tree, writes
# /verif/evidence/<id>.json, prints VIOLATION / KNOWN-FINDING lines, propagates the exit code.
set -u
export GOFLAGS=-mod=mod GOPROXY=off GOSUMDB=off GOTOOLCHAIN=local
unset GOWORK
HERE="$(cd "$(dirname "$0")" && pwd)"
PROP="${1:?property id}"
TIER="${2:-quick}"
REPO="${EXO_REPO:-/repo}"
"$HERE/build.sh" >/dev/null || { echo "exostatic: build failed"; exit 2; }
exec "$HERE/bin/exostatic" -repo "$REPO" -prop "$PROP" -tier "$TIER" \
  -evidence "$HERE/evidence/$PROP.json" -findings "$HERE/known_findings.json"
