#!/usr/bin/env python3
"""Generates /verif/MANIFEST.json from the per-property table below."""
import json
IDS=[f"C{i:02d}" for i in range(1,21)]
TRUST="go/packages, go/types, go/ssa and the VTA call graph (x/tools v0.29.0) are correct; interface calls resolve to the repo's implementers; cosmos-sdk baseapp semantics as listed in DESIGN.md section 3.6; the check decides only the structural clauses named in level_claimed.text, not the runtime behaviour"
CLAIMED={
 "C10": ("guard dominance per entry point (gateway caller check, AVS address binding and owner membership, signer=actor, governance authority, signature result used, Wrap(nil) rejections)",
         "structured-dominance facts over type-checked AST + effect summaries (SSA key-family resolver, call graph)", "4/C10"),
}
CLAIMED["C09"]=("checks-before-effects on every entry point whose failure is reported but not reverted (precompile `false` returns; logged-and-skipped calls in block processing) via an origin-keyed interprocedural write-before-failure analysis; cache-context discipline d1-d4 at every CacheContext() site; deferred writes guarded by the error result",
  "interprocedural write-before-failure analysis over type-checked AST + store effect summaries; cache-context typestate rules", "4/C09")
CLAIMED["C04"]=("one capped proportion (power x factor / current value incl. unbonding) multiplies every pool and every at-risk undelegation; truncation, original-amount base and clamp; `<` skip class of the height filter and no other use of it; write effects confined to pools/undelegations/share-zeroing; recorded = subtracted; duplicate-ID check before commit; parameter guards dominate",
  "dataflow-shape and comparison-class rules over type-checked AST; store effect summaries; cache-context typestate", "4/C04")
CLAIMED["C18"]=("per key family: export/import coverage of every live-written family, decode-type and key-constructor agreement between writers, exporters and importers, completeness of import literals, module init order vs cross-module reads",
  "SSA key-family resolver + store effect summaries over the VTA call graph; sibling agreement over families", "4/C18")
CLAIMED["C16"]=("per queue: append reads/writes its own family at one epoch; promote-then-clear in the epoch hook and apply-then-clear in EndBlock are unconditional and ordered; scheduling sites write queue, reverse lookup and hold consistently; completion epoch formula; hold-decision exits and the opt-out arm's epoch source",
  "effect-typed call matching (which family a call touches) + structured ordering/conditionality rules over type-checked AST", "4/C16")
CLAIMED["C06"]=("only dogfood EndBlock returns updates and only under the epoch-end marker; told = stored; validator-set families written only from the EndBlock/InitGenesis call trees; one cache context per change and forwarding exactly when committed; zero-power/unknown-key filters; previous-set map maintenance; total-order comparators (power desc, address bytes asc); cap and eligibility wiring",
  "structured-dominance facts and comparator classification over type-checked AST; store effect summaries for who-may-write; cache-context typestate", "4/C06")
CLAIMED["C07"]=("who-may-write the five key families; the three lookup indexes written and deleted together; store-a-key dominated by 'not removing' and 'key not in use' for the stored consensus address; previous key recorded once; reverse lookup deleted only by the pruning loop and the never-active arms; pruning schedule pairing; slash/jail via the reverse lookup; revision-less chain id arguments",
  "store effect summaries (who-may-write, direct-access sets per function) + structured-dominance facts over type-checked AST", "4/C07")
CLAIMED["C11"]=("on the unrecovered paths (Begin/EndBlock, wired epoch hooks, SDK staking-interface callbacks): every explicit panic / Must* / unchecked type assertion is of an accepted class; no dereference after a logged or discarded error; every division has a provably non-zero divisor; parse results are checked",
  "call-graph reachability from unrecovered roots + structured-dominance facts (nil-after-error, division guards) over type-checked AST", "4/C11")
CLAIMED["C17"]=("single live minter (exomint hook: once, configured identifier, non-zero reward, coins forwarded); AllocateTokens moves the whole fee-collector balance before any exit; remainder-accumulator booking in each allocation function and the commission/shared split; truncating portions; distribution hook before mint hook",
  "call-graph reachability for who-may-mint + dataflow-shape rules (remainder accumulator) over type-checked AST", "4/C17")
CLAIMED["C12"]=("strict cross-multiplied threshold without division; prices assigned only behind the threshold; sealed workers rejected and results memoised; expected-next-round-id guard and +1 advance; writer set of the price family; EndBlock seal/grow/clear/prepare wiring with token-id vs feeder-id roles; retention guard class; median sorts first",
  "normal-form comparison rules, structured-dominance facts and role-typed id flow over type-checked AST; store effect summaries for the writer set", "4/C12")
CLAIMED["C01"]=("symbolic delta algebra per ledger operation (transfers cancel; only deposit and positive NST adjustment increase; deposit/withdraw move deposit, withdrawable and staking total by one symbol); fixed set of direct writers of the ledger families; all arithmetic through the non-negativity-checked update helpers; withdraw/delegate preconditions",
  "symbolic delta-term extraction and cancellation over type-checked AST; SSA key-family resolver for the writer set", "4/C01")
CLAIMED["C02"]=("share delta balance (TotalShare and delegator share move by one symbol, OperatorShare iff associated), delegator-list maintenance with the shares incl. the slash-to-zero branch, rounding direction and last-share / dust rules",
  "symbolic delta-term extraction + structured-dominance facts over type-checked AST", "4/C02")
CLAIMED["C03"]=("no operator-state gate on the exit path; three-index symmetry and delete/re-date/set order; single deletion site, current-height lookup with separator, hold gate, per-record cache context; completion height formula and past-height rejection; index-key freshness; EndBlock order of hold release vs read; pending aggregates via the C01 delta algebra",
  "call-graph reachability (negative who-may-call), sibling agreement of key constructors, structured-dominance facts, effect-derived module order", "4/C03")
CLAIMED["C05"]=("value formula amount*price/10^(asset+price decimals) and its operand wiring incl. comma-ok lookups of the price and decimals maps; per operator reset-first, self/total assigned, active value and AVS accumulator only under self >= AVS minimum; asset filter = the AVS's supported assets; cache-context discipline of the recompute; epoch hook fan-out with error skip and the `>= start-1` tracking predicate; opt-in creates / opt-out deletes / not-opted-in reads zero; AVS/operator role arguments not swapped",
  "dataflow-shape and comparison-class rules + structured-dominance facts over type-checked AST; cache-context typestate; role-typed argument matching over entry-reachable calls", "4/C05")
CLAIMED["C20"]=("guard dominance at every write of the AVS registry, task counter, task, result, challenge and BLS-key families: registry uniqueness guards per arm, opt-in guards incl. self value >= AVS minimum, +1 task counter drawn only at task creation, common/phase-one/phase-two result guards with the window comparison classes and argument identity between guards and written key, challenge guards and uniqueness key, epoch-end selection predicate / grouping / signer lists / one write per group, who-may-write and who-may-call of the setters, key-constructor role order",
  "structured-dominance facts with call-outcome and comparison normal forms over type-checked AST; store effect summaries and call graph for the writer/caller sets", "4/C20")
CLAIMED["C13"]=("fee-less classification (every message a create-price message); every fee-less ante branch ends in next or error and carries its duty (gas limit 0, top priority, size limit, signer = key address, signature per signer, nonce check per message with the creator's consensus address); ante chain order; nonce check classes and single guarded write; nonce lifecycle (zero only when absent, removed when sealed and at finalisation, added for new rounds; writer set); counted-only-if guards dominate aggregation incl. every required source; timestamp window from the unrounded block time + 5 s for every price",
  "structured-dominance facts with call-outcome and comparison normal forms over type-checked AST; store effect summaries for the nonce writer set; decorator-order table read from the chain constructor", "4/C13")
CLAIMED["C15"]=("per-identifier callback never stops the iteration and ticks at most once; start gate and strict tick condition classes; first tick sets number 1 / configured start, later ticks +1 and start += duration; end(n) before the increment, start(n) after it on every tick incl. the first, record stored between them under its own identifier; multi-hook fan-out over every subscriber in slice order; registration order distribution, operator, dogfood, mint, AVS; who may notify / write epoch records",
  "dataflow-shape, ordering and comparison-class rules over type-checked AST; store effect summaries and call graph for the writer/caller sets", "4/C15")
CLAIMED["C08"]=("order-insensitivity of every range-over-map loop reachable from block execution / transactions / ante / precompiles / hooks / InitGenesis (commutative accumulations, idempotent assignments, running extrema, writes addressed by the iteration variables, map-ordered slices followed interprocedurally to a total-order sort or order-insensitive consumers); absence of wall-clock, randomness, environment and goroutine use; the set of package-level variables written; no shared mutable object between the CheckTx copy and the deliver-state oracle aggregator",
  "loop-carried-dependence classification of map iterations over type-checked AST with interprocedural slice-fate tracking; call-graph reachability for forbidden sources and global writes; aliasing rules on the copy constructor", "4/C08")
CLAIMED["C14"]=("replay order and arguments in recacheAggregatorContext (params in force, prepare previous block, the block's logged messages, seal at the replayed height, prepare the current block on every path); restore-before-use of process-local values; restart branch resets the caches before and marks them clean after the whole recache; logging completeness of submissions, validator changes (flag on every mutating arm), params updates and finalisation; unconditional commit each EndBlock; pruning keeps store and index in agreement and the params in force; singletons only through lazy accessors",
  "ordering / must-pass-through and argument-identity rules over type-checked AST; restore-before-use on the audited global set; sibling agreement between store and index pruning", "4/C14")
CLAIMED["C19"]=("EVM ante chain order; nonce exact-match rejection and +1 per message; with hooks the message and the hooks share one cache context committed only on success; apply error consumes the gas limit; unused gas refunded on every response at msg.GasPrice() from the fee collector to the sender; gas used = max(limit x multiplier, raw - capped refund) and fixed afterwards; ante fee = VerifyFee's effective fee deducted from each message's sender, fee cap >= base fee, block gas limit; tx-hash context value before EVM construction",
  "ordering, argument-identity and exact-rejection rules over type-checked AST of the repository's own ante decorators and state transition", "4/C19")
NA={}
def main():
    checks=[]
    for pid,(text,tech,ref) in sorted(CLAIMED.items()):
        checks.append({
         "property_id":pid,
         "quick_cmd":f"/verif/run.sh {pid} quick",
         "thorough_cmd":f"/verif/run.sh {pid} thorough",
         "evidence_file":f"/verif/evidence/{pid}.json",
         "replay_cmd_template":f"/verif/run.sh {pid} quick  # replay file {{path}} names the rule instance",
         "engine":"exostatic",
         "level_claimed":{"category":"other","text":"Static decision, on every path of the resolved program, of these structural necessary conditions of the property: "+text+". Violating any of them breaks the property for some input/history; satisfying them does not prove the runtime behaviour (see DESIGN.md, 'Not decided').","design_ref":"DESIGN.md section "+ref},
         "level_note":TRUST,
         "technique":"static analysis: "+tech})
    na=[{"property_id":p,"reason":NA.get(p,"check not implemented yet in this commit (implementation in progress; DESIGN.md section 4 lists the planned static rules)")} for p in IDS if p not in CLAIMED]
    m={"version":1,"setup_cmd":"/verif/build.sh",
     "hooks":{"guard":"verif","enable":"none: static analysis needs no instrumentation of /repo; no hook commits exist","baseline_off_cmd":"cd /repo && go build ./... && go test -vet=off -count=1 -timeout 25m ./...","source_commits":[],"add_only":True},
     "engines":[{"name":"exostatic","path":"/verif/exostatic","serves_properties":sorted(CLAIMED),"kind_free_text":"repository-specific static analyser: go/packages + go/types + structured-dominance facts over the AST + go/ssa key-family/effect summaries + VTA call graph; never executes repository code"}],
     "checks":checks,
     "notes":"All checks are static: each run re-loads /repo's working tree (go list + type-check + SSA) and never executes repository code. Genuine defects found are in known_findings.json (status fixed = repaired by a fix: commit in /repo; status known = recorded). selftest/mutants.py replays compiling mutants in a scratch worktree.",
     "not_applicable":na}
    json.dump(m,open('/verif/MANIFEST.json','w'),indent=1)
main()
